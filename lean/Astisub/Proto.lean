import Astisub.Model.Types
import Astisub.Model.Graph

/-!
# Proto — the line protocol shared by the Go harness and the Lean driver

One case per line: `<op> <args…> | <implementation output tokens…>`.
Tokens are separated by single spaces. Strings are hex(UTF-8) with an `x` prefix (so the
empty string is `x`). An item is `uid,start,end,pay,LINES`; `LINES` is `-` for no lines,
otherwise lines joined by `/`, each line `-` for no runs, otherwise runs joined by `;`.
A list of items is its length followed by the items.
Nothing here is mentioned by a theorem (trusted base: parser/printer of the tie).
-/

namespace Astisub
namespace Proto

def hexDigit (n : Nat) : Char := if n < 10 then Char.ofNat (48 + n) else Char.ofNat (87 + n)

def hexVal (c : Char) : Option Nat :=
  if '0' ≤ c ∧ c ≤ '9' then some (c.toNat - 48)
  else if 'a' ≤ c ∧ c ≤ 'f' then some (c.toNat - 87)
  else none

def hexOfBytes (bs : List UInt8) : String :=
  String.ofList (bs.flatMap fun b => [hexDigit (b.toNat / 16), hexDigit (b.toNat % 16)])

def bytesOfHexAux : List Char → List UInt8 → Option (List UInt8)
  | [], acc => some acc.reverse
  | [_], _ => none
  | a :: b :: rest, acc =>
    match hexVal a, hexVal b with
    | some x, some y => bytesOfHexAux rest (UInt8.ofNat (x * 16 + y) :: acc)
    | _, _ => none

def bytesOfHex (s : String) : Option (List UInt8) := bytesOfHexAux s.toList []

/-- `x<hex>` → string -/
def decStr (tok : String) : Option String :=
  match tok.toList with
  | 'x' :: rest =>
    match bytesOfHexAux rest [] with
    | some bs => String.fromUTF8? (ByteArray.mk bs.toArray)
    | none => none
  | _ => none

def encStr (s : String) : String := "x" ++ hexOfBytes s.toUTF8.toList

/-- `x<hex>` → raw bytes -/
def decBytes (tok : String) : Option (List UInt8) :=
  match tok.toList with
  | 'x' :: rest => bytesOfHexAux rest []
  | _ => none

def encBytes (bs : List UInt8) : String := "x" ++ hexOfBytes bs

def mapM? {α β} (f : α → Option β) : List α → Option (List β)
  | [] => some []
  | a :: as => match f a, mapM? f as with
    | some b, some bs => some (b :: bs)
    | _, _ => none

def decLines (s : String) : Option (List (List String)) :=
  if s = "-" then some []
  else mapM? (fun l => if l = "-" then some [] else mapM? decStr (l.splitOn ";")) (s.splitOn "/")

def encLines (ls : List (List String)) : String :=
  if ls.isEmpty then "-"
  else "/".intercalate (ls.map fun l => if l.isEmpty then "-" else ";".intercalate (l.map encStr))

def decItem (tok : String) : Option Item :=
  match tok.splitOn "," with
  | [u, s, e, p, l] =>
    match u.toNat?, s.toInt?, e.toInt?, p.toNat?, decLines l with
    | some u, some s, some e, some p, some l => some { uid := u, startAt := s, endAt := e, pay := p, lines := l }
    | _, _, _, _, _ => none
  | _ => none

def encItem (it : Item) : String :=
  s!"{it.uid},{it.startAt},{it.endAt},{it.pay},{encLines it.lines}"

/-- parse `n item₁ … itemₙ` from the front of a token list -/
def decItems : List String → Option (List Item × List String)
  | [] => none
  | n :: rest =>
    match n.toNat? with
    | none => none
    | some n =>
      if rest.length < n then none else
      match mapM? decItem (rest.take n) with
      | some its => some (its, rest.drop n)
      | none => none

def encItems (xs : List Item) : String :=
  " ".intercalate (toString xs.length :: xs.map encItem)

/-- split a token list at the first `|` -/
def splitBar (toks : List String) : List String × List String :=
  (toks.takeWhile (· ≠ "|"), (toks.dropWhile (· ≠ "|")).drop 1)

end Proto
end Astisub

namespace Astisub
namespace Proto

/-! ## graphs (regions, styles, references) -/

def decChain (s : String) : List String := if s = "-" then [] else s.splitOn ">"
def encChain (c : List String) : String := if c.isEmpty then "-" else ">".intercalate c

/-- `style,region,run;run;…` -/
def decGItem (tok : String) : Option GItem :=
  match tok.splitOn "," with
  | [s, r, runs] =>
    some { style := decChain s, region := if r = "-" then none else some r,
           runs := if runs = "" then [] else (runs.splitOn ";").map decChain }
  | _ => none

def encGItem (it : GItem) : String :=
  s!"{encChain it.style},{it.region.getD "-"},{";".intercalate (it.runs.map encChain)}"

/-- `key=id:chain:tag` -/
def decDef (tok : String) : Option (String × String × List String × Nat) :=
  match tok.splitOn "=" with
  | [k, rest] =>
    match rest.splitOn ":" with
    | [id, ch, tag] => match tag.toNat? with
      | some t => some (k, id, decChain ch, t)
      | none => none
    | _ => none
  | _ => none

def takeN {α} (f : String → Option α) : List String → Option (List α × List String)
  | [] => none
  | n :: rest =>
    match n.toNat? with
    | none => none
    | some n =>
      if rest.length < n then none else
      match mapM? f (rest.take n) with
      | some xs => some (xs, rest.drop n)
      | none => none

def decGraph (toks : List String) : Option (Graph × List String) :=
  match takeN decGItem toks with
  | none => none
  | some (items, r1) =>
    match takeN decDef r1 with
    | none => none
    | some (regs, r2) =>
      match takeN decDef r2 with
      | none => none
      | some (stys, r3) =>
        some ({ items := items,
                regions := regs.map fun (k, id, ch, t) => (k, { id := id, style := ch, tag := t }),
                styles := stys.map fun (k, id, ch, t) => (k, { id := id, parent := ch, tag := t }) }, r3)

def sortByKey {α} (l : List (String × α)) : List (String × α) :=
  l.mergeSort (fun a b => decide (a.1 ≤ b.1))

/-- canonical print: maps sorted by key -/
def encGraph (g : Graph) : String :=
  let its := toString g.items.length :: g.items.map encGItem
  let regs := sortByKey g.regions
  let stys := sortByKey g.styles
  let rs := toString regs.length :: regs.map fun (k, d) => s!"{k}={d.id}:{encChain d.style}:{d.tag}"
  let ss := toString stys.length :: stys.map fun (k, d) => s!"{k}={d.id}:{encChain d.parent}:{d.tag}"
  " ".intercalate (its ++ rs ++ ss)

end Proto
end Astisub
