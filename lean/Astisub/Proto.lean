import Astisub.Model.Types
import Astisub.Model.Graph
import Astisub.Model.Subs

/-!
# Proto — the line protocol shared by the Go harness and the Lean driver

One case per line: `<op> <args…> | <implementation output tokens…>`.
Tokens are separated by single spaces. Strings are hex(UTF-8) with an `x` prefix (so the
empty string is `x`). An item is `uid,start,end,pay,LINES`; `LINES` is `-` for no lines,
otherwise lines joined by `/`, each line `-` for no runs, otherwise runs joined by `;`.
A list of items is its length followed by the items.
Nothing here is mentioned by a theorem (trusted base: parser/printer of the tie).
-/

namespace Astisub
namespace Proto

def hexDigit (n : Nat) : Char := if n < 10 then Char.ofNat (48 + n) else Char.ofNat (87 + n)

def hexVal (c : Char) : Option Nat :=
  if '0' ≤ c ∧ c ≤ '9' then some (c.toNat - 48)
  else if 'a' ≤ c ∧ c ≤ 'f' then some (c.toNat - 87)
  else none

def hexOfBytes (bs : List UInt8) : String :=
  String.ofList (bs.flatMap fun b => [hexDigit (b.toNat / 16), hexDigit (b.toNat % 16)])

def bytesOfHexAux : List Char → List UInt8 → Option (List UInt8)
  | [], acc => some acc.reverse
  | [_], _ => none
  | a :: b :: rest, acc =>
    match hexVal a, hexVal b with
    | some x, some y => bytesOfHexAux rest (UInt8.ofNat (x * 16 + y) :: acc)
    | _, _ => none

def bytesOfHex (s : String) : Option (List UInt8) := bytesOfHexAux s.toList []

/-- `x<hex>` → string -/
def decStr (tok : String) : Option String :=
  match tok.toList with
  | 'x' :: rest =>
    match bytesOfHexAux rest [] with
    | some bs => String.fromUTF8? (ByteArray.mk bs.toArray)
    | none => none
  | _ => none

def encStr (s : String) : String := "x" ++ hexOfBytes s.toUTF8.toList

/-- `x<hex>` → raw bytes -/
def decBytes (tok : String) : Option (List UInt8) :=
  match tok.toList with
  | 'x' :: rest => bytesOfHexAux rest []
  | _ => none

def encBytes (bs : List UInt8) : String := "x" ++ hexOfBytes bs

def mapM? {α β} (f : α → Option β) : List α → Option (List β)
  | [] => some []
  | a :: as => match f a, mapM? f as with
    | some b, some bs => some (b :: bs)
    | _, _ => none

def decLines (s : String) : Option (List (List String)) :=
  if s = "-" then some []
  else mapM? (fun l => if l = "-" then some [] else mapM? decStr (l.splitOn ";")) (s.splitOn "/")

def encLines (ls : List (List String)) : String :=
  if ls.isEmpty then "-"
  else "/".intercalate (ls.map fun l => if l.isEmpty then "-" else ";".intercalate (l.map encStr))

def decItem (tok : String) : Option Item :=
  match tok.splitOn "," with
  | [u, s, e, p, l] =>
    match u.toNat?, s.toInt?, e.toInt?, p.toNat?, decLines l with
    | some u, some s, some e, some p, some l => some { uid := u, startAt := s, endAt := e, pay := p, lines := l }
    | _, _, _, _, _ => none
  | _ => none

def encItem (it : Item) : String :=
  s!"{it.uid},{it.startAt},{it.endAt},{it.pay},{encLines it.lines}"

/-- parse `n item₁ … itemₙ` from the front of a token list -/
def decItems : List String → Option (List Item × List String)
  | [] => none
  | n :: rest =>
    match n.toNat? with
    | none => none
    | some n =>
      if rest.length < n then none else
      match mapM? decItem (rest.take n) with
      | some its => some (its, rest.drop n)
      | none => none

def encItems (xs : List Item) : String :=
  " ".intercalate (toString xs.length :: xs.map encItem)

/-- split a token list at the first `|` -/
def splitBar (toks : List String) : List String × List String :=
  (toks.takeWhile (· ≠ "|"), (toks.dropWhile (· ≠ "|")).drop 1)

end Proto
end Astisub

namespace Astisub
namespace Proto

/-! ## graphs (regions, styles, references) -/

def decChain (s : String) : List String := if s = "-" then [] else s.splitOn ">"
def encChain (c : List String) : String := if c.isEmpty then "-" else ">".intercalate c

/-- `style,region,run;run;…` -/
def decGItem (tok : String) : Option GItem :=
  match tok.splitOn "," with
  | [s, r, runs] =>
    some { style := decChain s, region := if r = "-" then none else some r,
           runs := if runs = "" then [] else (runs.splitOn ";").map decChain }
  | _ => none

def encGItem (it : GItem) : String :=
  s!"{encChain it.style},{it.region.getD "-"},{";".intercalate (it.runs.map encChain)}"

/-- `key=id:chain:tag` -/
def decDef (tok : String) : Option (String × String × List String × Nat) :=
  match tok.splitOn "=" with
  | [k, rest] =>
    match rest.splitOn ":" with
    | [id, ch, tag] => match tag.toNat? with
      | some t => some (k, id, decChain ch, t)
      | none => none
    | _ => none
  | _ => none

def takeN {α} (f : String → Option α) : List String → Option (List α × List String)
  | [] => none
  | n :: rest =>
    match n.toNat? with
    | none => none
    | some n =>
      if rest.length < n then none else
      match mapM? f (rest.take n) with
      | some xs => some (xs, rest.drop n)
      | none => none

def decGraph (toks : List String) : Option (Graph × List String) :=
  match takeN decGItem toks with
  | none => none
  | some (items, r1) =>
    match takeN decDef r1 with
    | none => none
    | some (regs, r2) =>
      match takeN decDef r2 with
      | none => none
      | some (stys, r3) =>
        some ({ items := items,
                regions := regs.map fun (k, id, ch, t) => (k, { id := id, style := ch, tag := t }),
                styles := stys.map fun (k, id, ch, t) => (k, { id := id, parent := ch, tag := t }) }, r3)

def sortByKey {α} (l : List (String × α)) : List (String × α) :=
  l.mergeSort (fun a b => decide (a.1 ≤ b.1))

/-- canonical print: maps sorted by key -/
def encGraph (g : Graph) : String :=
  let its := toString g.items.length :: g.items.map encGItem
  let regs := sortByKey g.regions
  let stys := sortByKey g.styles
  let rs := toString regs.length :: regs.map fun (k, d) => s!"{k}={d.id}:{encChain d.style}:{d.tag}"
  let ss := toString stys.length :: stys.map fun (k, d) => s!"{k}={d.id}:{encChain d.parent}:{d.tag}"
  " ".intercalate (its ++ rs ++ ss)

end Proto
end Astisub

namespace Astisub
namespace Proto

/-! ## canonical `Subtitles` (see harness/canon.go) -/

def encS' (s : List Char) : String := encStr (String.ofList s)
def decS' (tok : String) : Option (List Char) := (decStr tok).map String.toList

def encRef (r : Option (List Char)) : String := match r with | none => "-" | some s => encS' s
def decRef (tok : String) : Option (Option (List Char)) := if tok = "-" then some none else (decS' tok).map some

def encAttrs : Attrs → List String
  | none => ["N"]
  | some kv => s!"A{kv.length}" :: kv.map fun (k, v) => String.ofList k ++ "=" ++ encS' v

def decAttrs : List String → Option (Attrs × List String)
  | "N" :: rest => some (none, rest)
  | a :: rest =>
    match a.toList with
    | 'A' :: n =>
      match (String.ofList n).toNat? with
      | some n =>
        if rest.length < n then none else
        match mapM? (fun (t : String) =>
            match t.splitOn "=" with
            | [k, v] => (decS' v).map fun v => (k.toList, v)
            | _ => none) (rest.take n) with
        | some kv => some (some kv, rest.drop n)
        | none => none
      | none => none
    | _ => none
  | [] => none

def encLItem (li : LItem) : List String :=
  ["T", encS' li.text, toString li.startAt, encRef li.style] ++ encAttrs li.attrs

def encLine (l : Line) : List String :=
  ["L", encS' l.voice, toString l.items.length] ++ l.items.flatMap encLItem

def encCItem (it : CItem) : List String :=
  ["I", toString it.index, toString it.startAt, toString it.endAt, encRef it.style, encRef it.region]
    ++ encAttrs it.attrs ++ [toString it.comments.length] ++ it.comments.map encS'
    ++ [toString it.lines.length] ++ it.lines.flatMap encLine

def encSDef (d : Def) : List String := ["D", encS' d.id, encRef d.ref] ++ encAttrs d.attrs

def sortDefs (l : List Def) : List Def := l.mergeSort (fun a b => !strLt b.id a.id)

def encSubsToks (s : Subs) : List String :=
  ["S", toString s.items.length] ++ s.items.flatMap encCItem
    ++ [toString s.regions.length] ++ (sortDefs s.regions).flatMap encSDef
    ++ [toString s.styles.length] ++ (sortDefs s.styles).flatMap encSDef
    ++ encAttrs s.metadata

def encSubs (s : Subs) : String := " ".intercalate (encSubsToks s)

/-- parse `n` things with a parser that consumes a prefix of the token list -/
def repeatP {α} (p : List String → Option (α × List String)) : Nat → List String → Option (List α × List String)
  | 0, ts => some ([], ts)
  | n + 1, ts =>
    match p ts with
    | some (a, ts') =>
      match repeatP p n ts' with
      | some (as, ts'') => some (a :: as, ts'')
      | none => none
    | none => none

def countP {α} (p : List String → Option (α × List String)) : List String → Option (List α × List String)
  | n :: ts => match n.toNat? with
    | some n => repeatP p n ts
    | none => none
  | [] => none

def decLItem : List String → Option (LItem × List String)
  | "T" :: t :: st :: sty :: rest =>
    match decS' t, st.toInt?, decRef sty, decAttrs rest with
    | some t, some st, some sty, some (a, rest) => some ({ text := t, startAt := st, style := sty, attrs := a }, rest)
    | _, _, _, _ => none
  | _ => none

def decLine : List String → Option (Line × List String)
  | "L" :: v :: rest =>
    match decS' v, countP decLItem rest with
    | some v, some (items, rest) => some ({ voice := v, items := items }, rest)
    | _, _ => none
  | _ => none

def decStrTok : List String → Option (List Char × List String)
  | t :: rest => (decS' t).map fun s => (s, rest)
  | [] => none

def decCItem : List String → Option (CItem × List String)
  | "I" :: idx :: s :: e :: sty :: reg :: rest =>
    match idx.toInt?, s.toInt?, e.toInt?, decRef sty, decRef reg, decAttrs rest with
    | some idx, some s, some e, some sty, some reg, some (a, rest) =>
      match countP decStrTok rest with
      | some (comments, rest) =>
        match countP decLine rest with
        | some (lines, rest) =>
          some ({ index := idx, startAt := s, endAt := e, style := sty, region := reg, attrs := a,
                  comments := comments, lines := lines }, rest)
        | none => none
      | none => none
    | _, _, _, _, _, _ => none
  | _ => none

def decSDef : List String → Option (Def × List String)
  | "D" :: id :: ref :: rest =>
    match decS' id, decRef ref, decAttrs rest with
    | some id, some ref, some (a, rest) => some ({ id := id, ref := ref, attrs := a }, rest)
    | _, _, _ => none
  | _ => none

def decSubs : List String → Option (Subs × List String)
  | "S" :: rest =>
    match countP decCItem rest with
    | some (items, rest) =>
      match countP decSDef rest with
      | some (regions, rest) =>
        match countP decSDef rest with
        | some (styles, rest) =>
          match decAttrs rest with
          | some (m, rest) => some ({ items := items, regions := regions, styles := styles, metadata := m }, rest)
          | none => none
        | none => none
      | none => none
    | none => none
  | _ => none

end Proto
end Astisub
