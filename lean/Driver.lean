import Astisub.Driver.Ops
import Astisub.Driver.Ts
import Astisub.Driver.IO
import Astisub.Driver.LinCorr
import Astisub.Driver.Lib
import Astisub.Driver.SRT
import Astisub.Driver.Conv
import Astisub.Driver.VTT
import Astisub.Driver.SSA
import Astisub.Driver.Teletext
import Astisub.Driver.TTML
import Astisub.Driver.STL

open Astisub Astisub.Driver Astisub.Proto

def handleLine (line : String) : Verdict :=
  let toks := (line.trimAscii.toString.splitOn " ")
  let (lhs, impl) := splitBar toks
  match lhs with
  | [] => .bad "empty"
  | op :: args =>
    if op == "ops.lincorr" || op == "lib.f53" then handleLinCorr op args impl
    else if op == "ops.seq" then handleSeq args impl
    else if op.startsWith "ops." then handleOps3 op args impl
    else if op == "lib.html" then handleLib op args impl
    else if op.startsWith "srt." then handleSRT op args impl
    else if op.startsWith "conv." then handleConv op args impl
    else if op.startsWith "ts." then handleTs op args impl
    else if op.startsWith "io." || op == "lib.scanner" || op == "det.write" || op == "det.dupid" || op == "conc.batch" || op.startsWith "tot." then handleIO op args impl
    else if op.startsWith "vtt." then handleVTT op args impl
    else if op.startsWith "ssa." then handleSSA op args impl
    else if op.startsWith "teletext." then handleTeletext op args impl
    else if op.startsWith "ttml." then handleTTML op args impl
    else if op.startsWith "stl." then handleSTL op args impl
    else .bad s!"unknown stream {op}"

structure Stats where
  total : Nat := 0
  agree : Nat := 0
  disOk : Nat := 0
  disFail : Nat := 0
  bad : Nat := 0
  unmod : Nat := 0

partial def loop (h : IO.FS.Stream) (out : IO.FS.Stream) (st : Stats) (n : Nat) : IO Stats := do
  let line ← h.getLine
  if line.isEmpty then return st
  if line.trimAscii.toString.isEmpty then loop h out st (n + 1) else
  match handleLine line with
  | .agree => loop h out { st with total := st.total + 1, agree := st.agree + 1 } (n + 1)
  | .unmodelled => loop h out { st with total := st.total + 1, unmod := st.unmod + 1 } (n + 1)
  | .disagree ok m =>
    out.putStrLn s!"DIS {n} spec={if ok then "pass" else "fail"} model={m}"
    let st := if ok then { st with disOk := st.disOk + 1 } else { st with disFail := st.disFail + 1 }
    loop h out { st with total := st.total + 1 } (n + 1)
  | .bad msg =>
    out.putStrLn s!"BAD {n} {msg}"
    loop h out { st with total := st.total + 1, bad := st.bad + 1 } (n + 1)

def main : IO UInt32 := do
  let stdin ← IO.getStdin
  let stdout ← IO.getStdout
  let st ← loop stdin stdout {} 0
  stdout.putStrLn s!"SUMMARY total={st.total} agree={st.agree} dis_spec_pass={st.disOk} dis_spec_fail={st.disFail} bad={st.bad} unmodelled={st.unmod}"
  return 0
