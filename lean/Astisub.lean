import Astisub.Model.Types
import Astisub.Model.Ops
